# C06 - write groups: typestate of Repository._write_group; a refused commit mutates nothing; abort never publishes.
TXN = Opaque("Transaction")
always_truthy(TXN, "transaction objects define neither __bool__ nor __len__")
CurTxn = ufunc("CurTxn", TXN)             # the transaction of the current lock context
WriteLocked = ufunc("WriteLocked", BOOL)
exceptions(BzrError="Exception", NotWriteLocked="Exception", BzrCheckError="BzrError")
REPO = cls("Repository", fields={"_write_group": Opt(TXN)})
assumed("self.get_transaction", pure=True, no_raise=True, returns=lambda c: CurTxn())
assumed("self.is_write_locked", pure=True, no_raise=True, returns=lambda c: WriteLocked())
assumed("self._start_write_group", result=NONE, raises={"Exception": "unchanged"})
assumed("self._commit_write_group", raises={"Exception": "unchanged"})
assumed("self._abort_write_group", result=NONE, raises={"Exception": "unchanged"})
pure("gettext", "log_exception_quietly")
R = "breezy/repository.py::Repository."
LOG_EQUIV = {r"mutter\(|note\(|log_exception_quietly": "tracing: outside the property", r"retnone": "the returned pack hint is advisory"}


def in_group(c):
    return And(Not(c.self._write_group.is_none), c.self._write_group.val == CurTxn())


target(R + "start_write_group",
       ensures={"entered": lambda c: And(in_group(c), WriteLocked(), c.old.self._write_group.is_none,
                                         lift(c.calls("self._start_write_group") == 1))},
       raises={"NotWriteLocked": lambda c: And(Not(WriteLocked()), c.self._write_group == c.old.self._write_group,
                                               lift(c.calls("self._start_write_group") == 0)),
               "BzrError": lambda c: And(Not(c.old.self._write_group.is_none), c.self._write_group == c.old.self._write_group,
                                         lift(c.calls("self._start_write_group") == 0)),
               "Exception": lambda c: c.self._write_group == c.old.self._write_group},
       canary=lambda c: c.self._write_group.is_none, equivalent_mutants=LOG_EQUIV)

target(R + "commit_write_group",
       ensures={"committed_once_and_left": lambda c: And(c.self._write_group.is_none, c.old.self._write_group == Opt(TXN).some(CurTxn()),
                                                         lift(c.calls("self._commit_write_group") == 1))},
       raises={"BzrError": lambda c: Or(
                   # refused: not the write group of this lock context - nothing was committed
                   And(Not(c.old.self._write_group == Opt(TXN).some(CurTxn())), lift(c.calls("self._commit_write_group") == 0),
                       c.self._write_group == c.old.self._write_group),
                   # or the repository refused the content: still in the write group (the caller must abort)
                   And(lift(c.calls("self._commit_write_group", failed=True) == 1), c.self._write_group == c.old.self._write_group)),
               "Exception": lambda c: And(lift(c.calls("self._commit_write_group", failed=True) == 1),
                                          c.self._write_group == c.old.self._write_group)},
       canary=lambda c: Not(c.self._write_group.is_none), equivalent_mutants=LOG_EQUIV)

target(R + "abort_write_group", params=dict(suppress_errors=BOOL),
       ensures={"left_or_ignored": lambda c: If(c.old.self._write_group == Opt(TXN).some(CurTxn()),
                                                And(c.self._write_group.is_none, lift(c.calls("self._abort_write_group") == 1)),
                                                # a stale write group (unlock/relock happened) is left alone when errors are suppressed
                                                And(c.old.suppress_errors, c.self._write_group == c.old.self._write_group,
                                                    lift(c.calls("self._abort_write_group") == 0)))},
       raises={"BzrError": lambda c: Or(
                   And(Not(c.old.self._write_group == Opt(TXN).some(CurTxn())), Not(c.old.suppress_errors),
                       lift(c.calls("self._abort_write_group") == 0), c.self._write_group == c.old.self._write_group),
                   And(lift(c.calls("self._abort_write_group", failed=True) == 1), c.self._write_group.is_none, Not(c.old.suppress_errors))),
               # a failing abort still leaves the write group (never stuck inside one)
               "Exception": lambda c: And(lift(c.calls("self._abort_write_group", failed=True) == 1), c.self._write_group.is_none,
                                          Not(c.old.suppress_errors))},
       canary=lambda c: Not(c.self._write_group.is_none), equivalent_mutants=LOG_EQUIV)

# ---- the pack collection: a refused commit mutates nothing; abort never publishes
PACK = Opaque("Pack")
X0 = ufunc("x0", PACK)           # an arbitrary pack
NoX0 = fold_all("NoX0", Seq(PACK), lambda e: e != X0())
always_truthy(PACK, "pack objects define neither __bool__ nor __len__")
attr_sort("Pack.name", STR)
MissingOf = ufunc("MissingOf", ANY, Seq(ANY))   # compression parents a versioned file still lacks
DataIns = ufunc("DataIns", PACK, BOOL)
ghost(allocated=SetS(PACK),
      attached=SetS(PACK))     # packs whose indices are part of the in-memory combined indices: their keys are visible through this repository object
ghost(published=BOOL,          # something of this write group was made visible: a pack finished+allocated, pack-names saved, autopack run
      aborted=SetS(PACK), finished=SetS(PACK))
RPC = cls("RepositoryPackCollection", fields={"_new_pack": Opt(PACK), "_resumed_packs": Seq(PACK), "_names": MapS(STR, ANY), "repo": ANY})
C = "breezy/bzr/pack_repo.py::RepositoryPackCollection."
Problems = ufunc("Problems", Seq(STR))
assumed(rx(r"versioned_file\.get_missing_compression_parent_keys"), pure=True, returns=lambda c: MissingOf(c.versioned_file),
        raises={"Exception": None})
assumed("self._check_new_inventories", pure=True, returns=lambda c: Problems(), raises={"Exception": None},
        note="GCRepositoryPackCollection._check_new_inventories: reads indices only")
assumed("self._remove_pack_indices", result=NONE, modifies=["g.attached"],
        ensures=lambda c: c.g.attached == (c.old.g.attached - mkset(SetS(PACK), c.args[0].val)),
        raises={"Exception": "unchanged"}, note="detaches the pack's indices from the in-memory combined indices (its keys stop being visible)")
assumed("self._new_pack.data_inserted", pure=True, no_raise=True, returns=lambda c: DataIns(c.self._new_pack.val))
assumed("pack.name", pure=True)
assumed("self._new_pack.finish", result=NONE, modifies=["g.finished"],
        ensures=lambda c: c.g.finished == (c.old.g.finished | mkset(SetS(PACK), c.self._new_pack.val)), raises={"Exception": "unchanged"})
assumed("self._new_pack.abort", result=NONE, modifies=["g.aborted"],
        ensures=lambda c: c.g.aborted == (c.old.g.aborted | mkset(SetS(PACK), c.self._new_pack.val)), raises={"Exception": "unchanged"})
assumed("resumed_pack.finish", result=NONE, modifies=["g.finished"],
        ensures=lambda c: c.g.finished == (c.old.g.finished | mkset(SetS(PACK), c.resumed_pack)), raises={"Exception": "unchanged"})
assumed("resumed_pack.abort", result=NONE, modifies=["g.aborted"],
        ensures=lambda c: c.g.aborted == (c.old.g.aborted | mkset(SetS(PACK), c.resumed_pack)), raises={"Exception": "unchanged"})
assumed("self.allocate", result=NONE, modifies=["g.published", "g.allocated", "self._names"], requires=lambda c: In(c.args[0].val, c.g.finished),
        ensures=lambda c: And(c.g.published, c.g.allocated == (c.old.g.allocated | mkset(SetS(PACK), c.args[0].val))),
        raises={"Exception": "unchanged"},
        note="adds the pack to the in-memory names; only a finished pack (all its files on disk) may be allocated")
assumed("self._remove_pack_from_memory", result=NONE, modifies=["self._names"], raises={"Exception": "unchanged"})
assumed("self.autopack", modifies=["g.published", "self._names"], ensures=lambda c: c.g.published, raises={"Exception": lambda c: TRUE})
assumed("self._save_pack_names", modifies=["g.published", "self._names"], ensures=lambda c: c.g.published, raises={"Exception": lambda c: TRUE},
        note="verified in C05")
pure("sorted")

target(C + "_commit_write_group", locals=dict(all_missing=SetS(ANY)),
       requires=lambda c: And(Not(c.g.published), Not(c.self._new_pack.is_none)),
       loops={2: loop(r"for resumed_pack in self\._resumed_packs", index="i",
                      inv=lambda c: And(c.self._new_pack.is_none, c.self._resumed_packs == c.old.self._resumed_packs,
                                        Implies(c.pre.any_new_content, c.any_new_content), Implies(c.i > 0, c.any_new_content),
                                        Implies(Not(c.any_new_content), And(Not(c.g.published), In(c.old.self._new_pack.val, c.g.aborted))),
                                        Implies(DataIns(c.old.self._new_pack.val), In(c.old.self._new_pack.val, c.g.allocated)),
                                        Implies(Not(NoX0(c.seen)), In(X0(), c.g.allocated))), prefix="seen")},
       ensures={"no_pack_left_open": lambda c: And(c.self._new_pack.is_none, Len(c.self._resumed_packs) == 0),
                "empty_write_group_publishes_nothing": lambda c: Implies(
                    Not(c.any_new_content), And(Not(c.g.published), In(c.old.self._new_pack.val, c.g.aborted),
                                                lift(c.calls("self.autopack") + c.calls("self._save_pack_names") == 0))),
                "names_saved_when_content_was_added": lambda c: Implies(c.any_new_content, lift(c.calls("self.autopack") == 1)),
                "only_complete_content_is_committed": lambda c: And(
                    Len(Problems()) == 0, Len(MissingOf(attr(c.self.repo, "revisions"))) == 0, Len(MissingOf(attr(c.self.repo, "inventories"))) == 0,
                    Len(MissingOf(attr(c.self.repo, "texts"))) == 0, Len(MissingOf(attr(c.self.repo, "signatures"))) == 0),
                "everything_written_in_the_group_is_published": lambda c: And(
                    Implies(DataIns(c.old.self._new_pack.val), In(c.old.self._new_pack.val, c.g.allocated)),
                    Implies(Not(NoX0(c.old.self._resumed_packs)), In(X0(), c.g.allocated)))},
       raises={"BzrCheckError": {
                   # the statement: a commit that is refused (missing compression parents, missing inventories/chk/texts) changes nothing
                   "refused_before_any_mutation": lambda c: And(
                       Not(c.g.published), c.g.finished == c.old.g.finished, c.g.aborted == c.old.g.aborted,
                       c.self._names == c.old.self._names, c.self._new_pack == c.old.self._new_pack,
                       c.self._resumed_packs == c.old.self._resumed_packs,
                       lift(c.calls("self.allocate") + c.calls("self.autopack") + c.calls("self._save_pack_names")
                            + c.calls("self._remove_pack_indices") == 0))},
               "Exception": True},
       canary=lambda c: c.g.published,
       equivalent_mutants={r"format\(|problems_summary|sorted\(": "error message text",
                           r"_remove_pack_indices|_remove_pack_from_memory|self\._names\[resumed_pack\.name\] = None": "in-memory index bookkeeping",
                           r"retnone": "the returned pack hint is advisory"})

target(C + "_abort_write_group",
       requires=lambda c: Not(c.g.published),
       loops={1: loop(r"for resumed_pack in self\._resumed_packs", prefix="seen",
                      inv=lambda c: And(Not(c.g.published), c.self._names == c.old.self._names, c.self._new_pack.is_none,
                                        Implies(Not(c.old.self._new_pack.is_none), Not(In(c.old.self._new_pack.val, c.g.attached))),
                                        Implies(Not(NoX0(c.seen)), Not(In(X0(), c.g.attached))),
                                        c.self._resumed_packs == c.old.self._resumed_packs,
                                        Implies(Not(c.old.self._new_pack.is_none), In(c.old.self._new_pack.val, c.g.aborted)),
                                        Implies(Not(NoX0(c.seen)), In(X0(), c.g.aborted))))},
       ensures={"nothing_published": lambda c: And(Not(c.g.published), c.self._names == c.old.self._names,
                                                   lift(c.calls("self.allocate") + c.calls("self._save_pack_names") + c.calls("self.autopack") == 0)),
                "every_open_pack_aborted": lambda c: And(
                    Implies(Not(c.old.self._new_pack.is_none), In(c.old.self._new_pack.val, c.g.aborted)),
                    Implies(Not(NoX0(c.old.self._resumed_packs)), In(X0(), c.g.aborted))),
                "no_pack_left_open": lambda c: And(c.self._new_pack.is_none, Len(c.self._resumed_packs) == 0),
                "aborted_data_is_no_longer_visible": lambda c: And(
                    Implies(Not(c.old.self._new_pack.is_none), Not(In(c.old.self._new_pack.val, c.g.attached))),
                    Implies(Not(NoX0(c.old.self._resumed_packs)), Not(In(X0(), c.g.attached))))},
       raises={"Exception": {"nothing_published": lambda c: And(Not(c.g.published), c.self._names == c.old.self._names),
                             "new_pack_forgotten": lambda c: c.self._new_pack.is_none,
                             # also when aborting the pack fails (the error may be suppressed by the caller): its keys must not stay visible
                             "new_pack_no_longer_visible_even_if_its_abort_failed": lambda c: Implies(
                                 And(Not(c.old.self._new_pack.is_none),
                                     lift(c.calls("self._remove_pack_indices", failed=True) == 0)),
                                 Not(In(c.old.self._new_pack.val, c.g.attached)))}},
       canary=lambda c: Not(c.self._new_pack.is_none),
       equivalent_mutants={})

assumed("self._remove_resumed_pack_indices", result=NONE, modifies=["self._resumed_packs"], raises={"Exception": "unchanged"})
target(C + "_suspend_write_group", locals=dict(tokens=Seq(STR)),
       requires=lambda c: And(Not(c.g.published), Not(c.self._new_pack.is_none)),
       ensures={"nothing_published": lambda c: And(Not(c.g.published), c.self._names == c.old.self._names,
                                                   lift(c.calls("self.allocate") + c.calls("self._save_pack_names") + c.calls("self.autopack") == 0)),
                "new_pack_kept_for_resuming_or_dropped": lambda c: And(
                    c.self._new_pack.is_none,
                    If(DataIns(c.old.self._new_pack.val),
                       And(In(c.old.self._new_pack.val, c.g.finished), In(attr(c.old.self._new_pack.val, "name"), c.result),
                           Not(In(c.old.self._new_pack.val, c.g.aborted)) if False else TRUE),
                       In(c.old.self._new_pack.val, c.g.aborted)))},
       raises={"Exception": lambda c: And(Not(c.g.published), c.self._names == c.old.self._names)},
       canary=lambda c: c.g.published,
       equivalent_mutants={r"_remove_pack_indices|_remove_resumed_pack_indices": "in-memory index bookkeeping"})
undecided("that a suspended and resumed write group equals a direct commit (pack contents: external)")
undecided("GCRepositoryPackCollection._check_new_inventories itself (set algebra over external index queries) - assumed to report every missing inventory/chk/text")
undecided("readers racing a commit (schedules)")
