# C28 - reentrant locking acquires and releases the physical lock exactly once.
# Contracts on the real CountedLock / LockableFiles / PackRepository methods.

PHYS = Enum("phys", ["free", "r", "w"])

# --- the physical lock (external: LockDir / OS lock) as a ghost object with counters
PhysLock = cls("PhysLock", fields=dict(state=PHYS, acquired=INT, released=INT))

assumed(("PhysLock", "lock_read"),
        requires=lambda c: c.self.state == "free",
        modifies=["self.state", "self.acquired"],
        ensures=lambda c: (c.self.state == "r") & (c.self.acquired == c.old.self.acquired + 1),
        result=NONE, note="a failing acquire changes nothing")
assumed(("PhysLock", "lock_write"), params=["token"],
        requires=lambda c: c.self.state == "free",
        modifies=["self.state", "self.acquired"],
        ensures=lambda c: (c.self.state == "w") & (c.self.acquired == c.old.self.acquired + 1),
        note="a failing acquire changes nothing")
assumed(("PhysLock", "validate_token"), params=["token"], result=NONE,
        note="may raise TokenMismatch, changes nothing")
assumed(("PhysLock", "unlock"),
        requires=lambda c: c.self.state != "free",
        modifies=["self.state", "self.released"],
        ensures=lambda c: (c.self.state == "free") & (c.self.released == c.old.self.released + 1),
        raises={"Exception": lambda c: c.self.released == c.old.self.released},
        result=NONE, note="a failing release leaves the physical state unknown but is not counted as a release")
assumed(("PhysLock", "break_lock"), modifies=["self.state"], ensures=lambda c: c.self.state == "free", result=NONE)

CL = cls("CountedLock", fields=dict(_real_lock=PhysLock, _lock_mode=Opt(STR), _lock_count=INT, _token=ANY))

exceptions(ReadOnlyError="Exception", LockNotHeld="Exception")


def inv(s):
    p = s._real_lock
    return And(s._lock_count >= 0,
               (s._lock_count == 0) == s._lock_mode.is_none,
               s._lock_mode.is_none | (s._lock_mode == "r") | (s._lock_mode == "w"),
               (p.state == "free") == (s._lock_count == 0),
               Implies(s._lock_count > 0, If(s._lock_mode == "r", p.state == "r", p.state == "w")),
               p.acquired - p.released == If(s._lock_count > 0, 1, 0))


def same_phys(c):
    p, q = c.self._real_lock, c.old.self._real_lock
    return And(p.state == q.state, p.acquired == q.acquired, p.released == q.released)


def unchanged(c):
    return And(c.self._lock_count == c.old.self._lock_count, c.self._lock_mode == c.old.self._lock_mode, same_phys(c))


CL_PATH = "breezy/counted_lock.py::CountedLock."

target(CL_PATH + "lock_read",
       requires=lambda c: inv(c.self),
       modifies=["self._lock_count", "self._lock_mode", "self._real_lock.state", "self._real_lock.acquired"],
       ensures={"inv": lambda c: inv(c.self),
                "once": lambda c: If(c.old.self._lock_count == 0,
                                     And(c.self._real_lock.acquired == c.old.self._real_lock.acquired + 1,
                                         c.self._real_lock.released == c.old.self._real_lock.released,
                                         c.self._lock_count == 1, c.self._lock_mode == "r"),
                                     And(same_phys(c), c.self._lock_count == c.old.self._lock_count + 1,
                                         c.self._lock_mode == c.old.self._lock_mode))},
       raises={"Exception": lambda c: unchanged(c) & (c.old.self._lock_count == 0)},
       canary=lambda c: c.self._lock_count == 1)

target(CL_PATH + "lock_write",
       requires=lambda c: inv(c.self),
       modifies=["self._lock_count", "self._lock_mode", "self._token", "self._real_lock.state", "self._real_lock.acquired"],
       ensures={"inv": lambda c: inv(c.self),
                "once": lambda c: If(c.old.self._lock_count == 0,
                                     And(c.self._real_lock.acquired == c.old.self._real_lock.acquired + 1,
                                         c.self._real_lock.released == c.old.self._real_lock.released,
                                         c.self._lock_count == 1, c.self._lock_mode == "w"),
                                     And(same_phys(c), c.self._lock_count == c.old.self._lock_count + 1,
                                         c.self._lock_mode == "w", c.old.self._lock_mode == "w")),
                "token": lambda c: eq(c.result, c.self._token)},
       raises={"ReadOnlyError": lambda c: unchanged(c) & (c.old.self._lock_mode == "r"),
               "Exception": lambda c: unchanged(c)},
       canary=lambda c: c.self._lock_count == 1)

target(CL_PATH + "unlock",
       requires=lambda c: inv(c.self),
       modifies=["self._lock_count", "self._lock_mode", "self._real_lock.state", "self._real_lock.released"],
       ensures={"inv": lambda c: inv(c.self),
                "once": lambda c: If(c.old.self._lock_count == 1,
                                     And(c.self._real_lock.released == c.old.self._real_lock.released + 1,
                                         c.self._real_lock.acquired == c.old.self._real_lock.acquired,
                                         c.self._lock_count == 0, c.self._lock_mode.is_none),
                                     And(same_phys(c), c.self._lock_count == c.old.self._lock_count - 1,
                                         c.old.self._lock_count > 1, c.self._lock_mode == c.old.self._lock_mode))},
       raises={"LockNotHeld": lambda c: unchanged(c) & (c.old.self._lock_count == 0),
               # the physical release failed: the object counts itself unlocked, nothing was counted as released
               "Exception": lambda c: And(c.old.self._lock_count == 1, c.self._lock_count == 0, c.self._lock_mode.is_none,
                                          c.self._real_lock.released == c.old.self._real_lock.released,
                                          c.self._real_lock.acquired == c.old.self._real_lock.acquired)},
       canary=lambda c: c.self._lock_count == 0)

target(CL_PATH + "is_locked",
       requires=lambda c: inv(c.self), modifies=[], raises={},
       ensures=lambda c: c.result == (c.self._lock_count > 0),
       canary=lambda c: c.result == True)

target(CL_PATH + "break_lock",
       requires=lambda c: inv(c.self),
       modifies=["self._lock_count", "self._lock_mode", "self._real_lock.state"],
       ensures=lambda c: And(c.self._lock_count == 0, c.self._lock_mode.is_none, c.self._real_lock.state == "free"),
       raises={"Exception": lambda c: unchanged(c)})

undecided("interleavings of several threads or processes on one lock object")
