# C28 - reentrant locking acquires and releases the physical lock exactly once.
# Contracts on the real CountedLock / LockableFiles / PackRepository methods.

PHYS = Enum("phys", ["free", "r", "w"])

# --- the physical lock (external: LockDir / OS lock) as a ghost object with counters
PhysLock = cls("PhysLock", fields=dict(state=PHYS, acquired=INT, released=INT))

assumed(("PhysLock", "lock_read"),
        requires=lambda c: c.self.state == "free",
        modifies=["self.state", "self.acquired"],
        ensures=lambda c: (c.self.state == "r") & (c.self.acquired == c.old.self.acquired + 1),
        result=NONE, note="a failing acquire changes nothing")
assumed(("PhysLock", "lock_write"), params=["token"],
        requires=lambda c: c.self.state == "free",
        modifies=["self.state", "self.acquired"],
        ensures=lambda c: (c.self.state == "w") & (c.self.acquired == c.old.self.acquired + 1),
        note="a failing acquire changes nothing")
assumed(("PhysLock", "validate_token"), params=["token"], result=NONE,
        note="may raise TokenMismatch, changes nothing")
assumed(("PhysLock", "unlock"),
        requires=lambda c: c.self.state != "free",
        modifies=["self.state", "self.released"],
        ensures=lambda c: (c.self.state == "free") & (c.self.released == c.old.self.released + 1),
        raises={"Exception": lambda c: c.self.released == c.old.self.released},
        result=NONE, note="a failing release leaves the physical state unknown but is not counted as a release")
assumed(("PhysLock", "break_lock"), modifies=["self.state"], ensures=lambda c: c.self.state == "free", result=NONE)

CL = cls("CountedLock", fields=dict(_real_lock=PhysLock, _lock_mode=Opt(STR), _lock_count=INT, _token=ANY))

exceptions(ReadOnlyError="Exception", LockNotHeld="Exception")


def inv(s):
    p = s._real_lock
    return And(s._lock_count >= 0,
               (s._lock_count == 0) == s._lock_mode.is_none,
               s._lock_mode.is_none | (s._lock_mode == "r") | (s._lock_mode == "w"),
               (p.state == "free") == (s._lock_count == 0),
               Implies(s._lock_count > 0, If(s._lock_mode == "r", p.state == "r", p.state == "w")),
               p.acquired - p.released == If(s._lock_count > 0, 1, 0))


def same_phys(c):
    p, q = c.self._real_lock, c.old.self._real_lock
    return And(p.state == q.state, p.acquired == q.acquired, p.released == q.released)


def unchanged(c):
    return And(c.self._lock_count == c.old.self._lock_count, c.self._lock_mode == c.old.self._lock_mode, same_phys(c))


CL_PATH = "breezy/counted_lock.py::CountedLock."

target(CL_PATH + "lock_read",
       requires=lambda c: inv(c.self),
       modifies=["self._lock_count", "self._lock_mode", "self._real_lock.state", "self._real_lock.acquired"],
       ensures={"inv": lambda c: inv(c.self),
                "once": lambda c: If(c.old.self._lock_count == 0,
                                     And(c.self._real_lock.acquired == c.old.self._real_lock.acquired + 1,
                                         c.self._real_lock.released == c.old.self._real_lock.released,
                                         c.self._lock_count == 1, c.self._lock_mode == "r"),
                                     And(same_phys(c), c.self._lock_count == c.old.self._lock_count + 1,
                                         c.self._lock_mode == c.old.self._lock_mode))},
       raises={"Exception": lambda c: unchanged(c) & (c.old.self._lock_count == 0)},
       canary=lambda c: c.self._lock_count == 1)

target(CL_PATH + "lock_write",
       requires=lambda c: inv(c.self),
       modifies=["self._lock_count", "self._lock_mode", "self._token", "self._real_lock.state", "self._real_lock.acquired"],
       ensures={"inv": lambda c: inv(c.self),
                "once": lambda c: If(c.old.self._lock_count == 0,
                                     And(c.self._real_lock.acquired == c.old.self._real_lock.acquired + 1,
                                         c.self._real_lock.released == c.old.self._real_lock.released,
                                         c.self._lock_count == 1, c.self._lock_mode == "w"),
                                     And(same_phys(c), c.self._lock_count == c.old.self._lock_count + 1,
                                         c.self._lock_mode == "w", c.old.self._lock_mode == "w")),
                "token": lambda c: eq(c.result, c.self._token)},
       raises={"ReadOnlyError": lambda c: unchanged(c) & (c.old.self._lock_mode == "r"),
               "Exception": lambda c: unchanged(c)},
       canary=lambda c: c.self._lock_count == 1,
       equivalent_mutants={r"drop:Expr.*\| self\._real_lock\.validate_token\(": "token validation is outside the counting property"})

target(CL_PATH + "unlock",
       requires=lambda c: inv(c.self),
       modifies=["self._lock_count", "self._lock_mode", "self._real_lock.state", "self._real_lock.released"],
       ensures={"inv": lambda c: inv(c.self),
                "once": lambda c: If(c.old.self._lock_count == 1,
                                     And(c.self._real_lock.released == c.old.self._real_lock.released + 1,
                                         c.self._real_lock.acquired == c.old.self._real_lock.acquired,
                                         c.self._lock_count == 0, c.self._lock_mode.is_none),
                                     And(same_phys(c), c.self._lock_count == c.old.self._lock_count - 1,
                                         c.old.self._lock_count > 1, c.self._lock_mode == c.old.self._lock_mode))},
       raises={"LockNotHeld": lambda c: unchanged(c) & (c.old.self._lock_count == 0),
               # the physical release failed: the object counts itself unlocked, nothing was counted as released
               "Exception": lambda c: And(c.old.self._lock_count == 1, c.self._lock_count == 0, c.self._lock_mode.is_none,
                                          c.self._real_lock.released == c.old.self._real_lock.released,
                                          c.self._real_lock.acquired == c.old.self._real_lock.acquired)},
       canary=lambda c: c.self._lock_count == 0)

target(CL_PATH + "is_locked",
       requires=lambda c: inv(c.self), modifies=[], raises={},
       ensures=lambda c: c.result == (c.self._lock_count > 0),
       canary=lambda c: c.result == True)

target(CL_PATH + "break_lock",
       requires=lambda c: inv(c.self),
       modifies=["self._lock_count", "self._lock_mode", "self._real_lock.state"],
       ensures=lambda c: And(c.self._lock_count == 0, c.self._lock_mode.is_none, c.self._real_lock.state == "free"),
       raises={"Exception": lambda c: unchanged(c)})

undecided("interleavings of several threads or processes on one lock object")

# =====================================================================================
# LockableFiles: its own counter in front of the physical lock (it does not use CountedLock)
# =====================================================================================
TX = Enum("tx", ["ro", "rw"])
LF = cls("LockableFiles", fields=dict(_lock=PhysLock, _lock_mode=Opt(STR), _lock_count=INT, _transaction=Opt(TX),
                                      _token_from_lock=ANY))
exceptions(LockError="Exception", LockBroken="LockError", TokenMismatch="LockError", TokenLockingNotSupported="LockError")


def lf_inv(s):
    p = s._lock
    return And(s._lock_count >= 0,
               (s._lock_count == 0) == s._lock_mode.is_none,
               s._lock_mode.is_none | (s._lock_mode == "r") | (s._lock_mode == "w"),
               (p.state == "free") == (s._lock_count == 0),
               Implies(s._lock_count > 0, If(s._lock_mode == "r", p.state == "r", p.state == "w")),
               p.acquired - p.released == If(s._lock_count > 0, 1, 0),
               # a transaction exists exactly while locked, writeable exactly in write mode
               s._transaction.is_none == (s._lock_count == 0),
               Implies(s._lock_mode == "w", s._transaction == Opt(TX).some(TX.lit("rw"))),
               Implies(s._lock_mode == "r", s._transaction == Opt(TX).some(TX.lit("ro"))))


def lf_same_phys(c):
    p, q = c.self._lock, c.old.self._lock
    return And(p.state == q.state, p.acquired == q.acquired, p.released == q.released)


def lf_unchanged(c):
    return And(c.self._lock_count == c.old.self._lock_count, c.self._lock_mode == c.old.self._lock_mode,
               c.self._transaction == c.old.self._transaction, lf_same_phys(c))


# transaction helpers of LockableFiles: verified below, used modularly by the lock methods
SET_TX = verified(("LockableFiles", "_set_transaction"), params=["new_transaction"], result=NONE,
                  modifies=["self._transaction"],
                  requires=None,
                  ensures=lambda c: And(c.old.self._transaction.is_none,
                                        c.self._transaction == Opt(TX).some(c.new_transaction)),
                  raises={"LockError": lambda c: And(Not(c.old.self._transaction.is_none), c.self._transaction == c.old.self._transaction)})
FIN_TX = verified(("LockableFiles", "_finish_transaction"), result=NONE, modifies=["self._transaction"],
                  ensures=lambda c: And(Not(c.old.self._transaction.is_none), c.self._transaction.is_none),
                  raises={"LockError": lambda c: And(c.old.self._transaction.is_none, c.self._transaction.is_none)})
SET_W = verified(("LockableFiles", "_set_write_transaction"), result=NONE, modifies=["self._transaction"],
                 ensures=lambda c: And(c.old.self._transaction.is_none, c.self._transaction == Opt(TX).some(TX.lit("rw"))),
                 raises={"LockError": lambda c: And(Not(c.old.self._transaction.is_none), c.self._transaction == c.old.self._transaction)})
SET_R = verified(("LockableFiles", "_set_read_transaction"), result=NONE, modifies=["self._transaction"],
                 ensures=lambda c: And(c.old.self._transaction.is_none, c.self._transaction == Opt(TX).some(TX.lit("ro"))),
                 raises={"LockError": lambda c: And(Not(c.old.self._transaction.is_none), c.self._transaction == c.old.self._transaction)})
assumed("transactions.WriteTransaction", pure=True, returns=lambda c: TX.lit("rw"))
assumed("transactions.ReadOnlyTransaction", pure=True, returns=lambda c: TX.lit("ro"))
assumed("transaction.finish", result=NONE, no_raise=True,
        note="Transaction.finish() only drops caches: it does not touch lock state and does not raise (transactions.py)")
assumed("self.get_transaction().writeable", pure=True,
        returns=lambda c: Or(c.self._transaction.is_none, c.self._transaction == Opt(TX).some(TX.lit("rw"))),
        note="WriteTransaction and PassThroughTransaction are writeable, ReadOnlyTransaction is not (transactions.py)")
assumed("self.get_transaction().set_cache_size", pure=True, result=NONE)
assumed("lock.cant_unlock_not_held", result=NONE, raises={"LockNotHeld": "unchanged"},
        note="raises LockNotHeld, or only warns under the 'unlock' debug flag; changes nothing")

LFP = "breezy/bzr/lockable_files.py::LockableFiles."
target(LFP + "_set_transaction", contract=SET_TX, params=dict(new_transaction=TX))
target(LFP + "_finish_transaction", contract=FIN_TX,
       equivalent_mutants={r"drop:Expr.*\| transaction\.finish\(\)": "finishing the transaction object is outside the lock-counting property"})
target(LFP + "_set_write_transaction", contract=SET_W)
target(LFP + "_set_read_transaction", contract=SET_R,
       equivalent_mutants={r"drop:Expr.*set_cache_size": "cache size is outside the property"})

LF_LOCK_READ = verified(("LockableFiles", "lock_read"), result=NONE,
                        requires=lambda c: lf_inv(c.self),
                        modifies=["self._lock_count", "self._lock_mode", "self._transaction", "self._lock.state", "self._lock.acquired"],
                        ensures=lambda c: And(lf_inv(c.self),
                                              If(c.old.self._lock_count == 0,
                                                 And(c.self._lock.acquired == c.old.self._lock.acquired + 1,
                                                     c.self._lock.released == c.old.self._lock.released,
                                                     c.self._lock_count == 1, c.self._lock_mode == "r"),
                                                 And(lf_same_phys(c), c.self._lock_count == c.old.self._lock_count + 1,
                                                     c.self._lock_mode == c.old.self._lock_mode,
                                                     c.self._transaction == c.old.self._transaction))),
                        raises={"Exception": lambda c: lf_unchanged(c) & (c.old.self._lock_count == 0)})
target(LFP + "lock_read", contract=LF_LOCK_READ, canary=lambda c: c.self._lock_count == 1,
       equivalent_mutants={r"drop:Raise.*\| raise ValueError\(": "dead code under the object invariant (mode is always None, 'r' or 'w')"})

LF_LOCK_WRITE = verified(("LockableFiles", "lock_write"), params=["token"],
                         requires=lambda c: lf_inv(c.self),
                         modifies=["self._lock_count", "self._lock_mode", "self._transaction", "self._token_from_lock",
                                   "self._lock.state", "self._lock.acquired"],
                         ensures=lambda c: And(lf_inv(c.self),
                                               If(c.old.self._lock_count == 0,
                                                  And(c.self._lock.acquired == c.old.self._lock.acquired + 1,
                                                      c.self._lock.released == c.old.self._lock.released,
                                                      c.self._lock_count == 1, c.self._lock_mode == "w"),
                                                  And(lf_same_phys(c), c.self._lock_count == c.old.self._lock_count + 1,
                                                      c.self._lock_mode == "w", c.old.self._lock_mode == "w",
                                                      c.self._transaction == c.old.self._transaction)),
                                               eq(c.result, c.self._token_from_lock)),
                         raises={"ReadOnlyError": lambda c: lf_unchanged(c) & (c.old.self._lock_mode == "r"),
                                 "Exception": lambda c: lf_unchanged(c)})
target(LFP + "lock_write", contract=LF_LOCK_WRITE, canary=lambda c: c.self._lock_count == 1,
       equivalent_mutants={r"boolop.*\| if self\._lock_mode != .w. or not": "under the object invariant the mode is 'w' exactly when the transaction is writeable, so `or` and `and` agree",
                           r"drop:Expr.*\| self\._lock\.validate_token\(": "token validation is outside the counting property"})

LF_UNLOCK = verified(("LockableFiles", "unlock"), result=NONE,
                     requires=lambda c: lf_inv(c.self),
                     modifies=["self._lock_count", "self._lock_mode", "self._transaction", "self._lock.state", "self._lock.released"],
                     ensures=lambda c: If(c.old.self._lock_count == 0,
                                          # only reachable under the 'unlock' debug flag: warn, change nothing
                                          lf_unchanged(c),
                                          If(c.old.self._lock_count == 1,
                                             And(c.self._lock_count == 0, c.self._lock_mode.is_none, c.self._transaction.is_none,
                                                 c.self._lock.acquired == c.old.self._lock.acquired,
                                                 # released exactly once; a failing release is swallowed by only_raises
                                                 Or(And(c.self._lock.released == c.old.self._lock.released + 1, lf_inv(c.self)),
                                                    c.self._lock.released == c.old.self._lock.released)),
                                             And(lf_inv(c.self), lf_same_phys(c), c.self._lock_count == c.old.self._lock_count - 1,
                                                 c.self._lock_mode == c.old.self._lock_mode,
                                                 c.self._transaction == c.old.self._transaction))),
                     raises={"LockNotHeld": lambda c: lf_unchanged(c) & (c.old.self._lock_count == 0),
                             "LockBroken": lambda c: And(c.old.self._lock_count == 1, c.self._lock_count == 0,
                                                         c.self._lock_mode.is_none, c.self._transaction.is_none,
                                                         c.self._lock.released == c.old.self._lock.released)})
target(LFP + "unlock", contract=LF_UNLOCK,
       ensures={"contract": LF_UNLOCK.ensures,
                "physical_release_attempted_exactly_on_last_unlock": lambda c: If(
                    c.old.self._lock_count == 1, c.calls("PhysLock.unlock") == 1, c.calls("PhysLock.unlock") == 0),
                # unlocking an unlocked object goes through the refusal policy point (LockNotHeld unless the debug flag is set)
                "unlock_when_not_held_is_refused": lambda c: Implies(c.old.self._lock_count == 0,
                                                                     c.calls("lock.cant_unlock_not_held") == 1)},
       canary=lambda c: c.self._lock_count == 0)

LF_IS_LOCKED = verified(("LockableFiles", "is_locked"), result=BOOL, modifies=[],
                        no_raise=True, pure=True, ensures=lambda c: c.result == (c.self._lock_count >= 1))
target(LFP + "is_locked", contract=LF_IS_LOCKED, raises={}, canary=lambda c: c.result == True)

# =====================================================================================
# PackRepository: logical write-lock counter in front of control_files (modular on LockableFiles)
# =====================================================================================
PR = cls("PackRepository", fields=dict(control_files=LF, _write_lock_count=INT, _write_group=Opt(ANY), _transaction=Opt(TX),
                                       _prev_lock=ANY, _fallback_repositories=ANY, _unstacked_provider=ANY))
exceptions(BzrError="Exception")
pure("debug.debug_flag_enabled", "RepositoryWriteLockResult", "LogicalLockResult")
assumed("self._refresh_data", result=NONE, note="reloads pack names; does not touch lock counters")
assumed("self.abort_write_group", result=NONE, modifies=["self._write_group"],
        ensures=lambda c: c.self._write_group.is_none, raises={"Exception": lambda c: TRUE})
assumed("self._unstacked_provider.enable_cache", result=NONE)
assumed("self._unstacked_provider.disable_cache", result=NONE, no_raise=True,
        note="CachingParentsProvider.disable_cache only resets fields: it does not raise")


def pr_inv(s):
    return And(s._write_lock_count >= 0, lf_inv(s.control_files),
               Implies(s._write_lock_count > 0, s.control_files._lock_count == 0),
               # a write transaction exists exactly while write-locked
               s._transaction.is_none == (s._write_lock_count == 0))


def cf_unchanged(c):
    a, b = c.self.control_files, c.old.self.control_files
    return And(a._lock_count == b._lock_count, a._lock_mode == b._lock_mode, a._transaction == b._transaction,
               a._lock.state == b._lock.state, a._lock.acquired == b._lock.acquired, a._lock.released == b._lock.released)


PRP = "breezy/bzr/pack_repo.py::PackRepository."
PR_EQUIV = {r"relock|was (write|read) locked again": "debug note under the 'relock' flag only: no effect on lock state",
            r"drop:Assign.*\| self\._prev_lock = ": "_prev_lock is read only by the 'relock' debug note",
            r"drop:Expr.*\| transaction\.finish\(\)": "finishing the transaction object is outside the lock-counting property"}


def first_lock_side_effects(c):
    """Caches, fallback repositories and pack names are set up exactly when the repository goes from unlocked to locked."""
    was_locked = Or(c.old.self._write_lock_count > 0, c.old.self.control_files._lock_count >= 1)
    n = (c.calls("self._unstacked_provider.enable_cache"), c.calls("self._refresh_data"), 1 if c.in_loop() else 0)
    return If(was_locked, lift(n == (0, 0, 0)), lift(n == (1, 1, 1)))

FALLBACK_LOOP = loop(r"for repo in self\._fallback_repositories", lambda c: TRUE,
                     body_post=lambda c: c.calls_in_iteration("?repo.lock_read") == 1)   # every fallback is read-locked once

PR_IS_LOCKED = verified(("PackRepository", "is_locked"), result=BOOL, modifies=[], no_raise=True, pure=True,
                        requires=lambda c: c.self._write_lock_count >= 0,
                        ensures=lambda c: c.result == Or(c.self._write_lock_count > 0, c.self.control_files._lock_count >= 1))
target(PRP + "is_locked", contract=PR_IS_LOCKED, raises={}, canary=lambda c: c.result == True)

target(PRP + "is_write_locked", requires=lambda c: pr_inv(c.self), modifies=[], raises={}, result=INT,
       ensures=lambda c: c.result == c.self._write_lock_count, canary=lambda c: c.result == 0)

target(PRP + "lock_write",
       requires=lambda c: pr_inv(c.self), loops={1: FALLBACK_LOOP},
       modifies=["self._write_lock_count", "self._transaction", "self._prev_lock"],
       ensures={"inv": lambda c: pr_inv(c.self),
                "counted": lambda c: And(c.self._write_lock_count == c.old.self._write_lock_count + 1, cf_unchanged(c)),
                "no_physical_lock_traffic": lambda c: And(c.calls("LockableFiles.lock_write") == 0, c.calls("LockableFiles.lock_read") == 0,
                                                          c.calls("LockableFiles.unlock") == 0),
                "first_lock_side_effects": first_lock_side_effects,
                "returns_a_lock_result": lambda c: Not(c.result.is_none)},
       raises={"ReadOnlyError": lambda c: And(c.self._write_lock_count == 0, c.old.self._write_lock_count == 0, cf_unchanged(c),
                                              c.old.self.control_files._lock_count >= 1),
               # a failure while enabling caches / locking fallbacks / refreshing leaves the counter incremented
               "Exception": lambda c: And(cf_unchanged(c), c.self._write_lock_count == c.old.self._write_lock_count + 1,
                                          c.old.self._write_lock_count == 0)},
       canary=lambda c: c.self._write_lock_count == 1, equivalent_mutants=PR_EQUIV)

target(PRP + "lock_read",
       requires=lambda c: pr_inv(c.self), loops={1: FALLBACK_LOOP},
       modifies=["self._write_lock_count", "self._prev_lock", "self.control_files._lock_count", "self.control_files._lock_mode",
                 "self.control_files._transaction", "self.control_files._lock.state", "self.control_files._lock.acquired"],
       ensures={"inv": lambda c: pr_inv(c.self),
                "counted": lambda c: If(c.old.self._write_lock_count > 0,
                                        And(c.self._write_lock_count == c.old.self._write_lock_count + 1, cf_unchanged(c),
                                            c.calls("LockableFiles.lock_read") == 0),
                                        And(c.self._write_lock_count == 0, c.calls("LockableFiles.lock_read") == 1,
                                            c.self.control_files._lock_count == c.old.self.control_files._lock_count + 1)),
                "first_lock_side_effects": first_lock_side_effects,
                "returns_a_lock_result": lambda c: Not(c.result.is_none)},
       raises={"Exception": lambda c: And(pr_inv(c.self), c.old.self._write_lock_count == 0, c.self._write_lock_count == 0)},
       canary=lambda c: c.self._write_lock_count == 0, equivalent_mutants=PR_EQUIV)

target(PRP + "unlock",
       requires=lambda c: pr_inv(c.self),
       loops={1: loop(r"for repo in self\._fallback_repositories", lambda c: TRUE,
                      body_post=lambda c: c.calls_in_iteration("?repo.unlock") == 1)},
       modifies=["self._write_lock_count", "self._write_group", "self._transaction", "self.control_files._lock_count",
                 "self.control_files._lock_mode", "self.control_files._transaction", "self.control_files._lock.state",
                 "self.control_files._lock.released"],
       ensures={"counted": lambda c: If(c.old.self._write_lock_count > 0,
                                        And(cf_unchanged(c), c.calls("LockableFiles.unlock") == 0,
                                            # a failing abort_write_group is swallowed by only_raises: still write-locked
                                            If(c.calls("self.abort_write_group", failed=True) == 1,
                                               c.self._write_lock_count == c.old.self._write_lock_count,
                                               c.self._write_lock_count == c.old.self._write_lock_count - 1)),
                                        And(c.self._write_lock_count == 0, c.calls("LockableFiles.unlock") == 1)),
                "inv": lambda c: Implies(And(Or(c.old.self._write_lock_count > 0, c.old.self.control_files._lock_count != 1),
                                             c.calls("self.abort_write_group", failed=True) == 0), pr_inv(c.self)),
                # an open write group is aborted exactly when the last write lock is released with a group still open
                "write_group_abort": lambda c: If(And(c.old.self._write_lock_count == 1, Not(c.old.self._write_group.is_none)),
                                                  lift(c.calls("self.abort_write_group") == 1
                                                       and (c.calls("self.abort_write_group", failed=True) == 1
                                                            or c.calls("self._unstacked_provider.disable_cache") == 1)),
                                                  lift(c.calls("self.abort_write_group") == 0)),
                # caches are dropped and fallback repositories unlocked exactly when the last lock goes away
                "last_unlock_side_effects": lambda c: Implies(
                    c.calls("self.abort_write_group") == 0,     # (the forced write-group abort path returns early)
                    If(Or(c.self._write_lock_count > 0, c.self.control_files._lock_count >= 1),
                       lift(not c.in_loop()), lift(c.in_loop() and c.calls("self._unstacked_provider.disable_cache") >= 1)))},
       raises={"LockNotHeld": lambda c: And(c.old.self._write_lock_count == 0, c.self._write_lock_count == 0,
                                            c.old.self.control_files._lock_count == 0, cf_unchanged(c)),
               "LockBroken": lambda c: And(c.old.self._write_lock_count == 0, c.self._write_lock_count == 0)},
       canary=lambda c: c.self._write_lock_count == 0, equivalent_mutants=PR_EQUIV)
undecided("PackRepository write locks are purely logical: no physical lock is taken by lock_write (by design); "
          "branches, working trees and RemoteRepository lock wrappers are not under contract")

# =====================================================================================
# DirStateWorkingTree: branch lock, then control files, then the dirstate file lock; undone in reverse on failure
# =====================================================================================
BL = cls("BranchLock", fields=dict(depth=INT))
assumed(("BranchLock", "lock_read"), result=NONE, modifies=["self.depth"], ensures=lambda c: c.self.depth == c.old.self.depth + 1)
assumed(("BranchLock", "lock_write"), modifies=["self.depth"], ensures=lambda c: c.self.depth == c.old.self.depth + 1)
assumed(("BranchLock", "unlock"), result=NONE, modifies=["self.depth"], ensures=lambda c: c.self.depth == c.old.self.depth - 1,
        raises={"Exception": lambda c: c.self.depth == c.old.self.depth - 1},
        note="Branch.unlock always gives its hold back, even when it reports an error")
DS = cls("DirState", fields=dict(_lock_token=Opt(ANY), acquired=INT, released=INT))
assumed(("DirState", "lock_read"), result=NONE, modifies=["self._lock_token", "self.acquired"],
        requires=lambda c: c.self._lock_token.is_none,
        ensures=lambda c: And(Not(c.self._lock_token.is_none), truthy(c.self._lock_token), c.self.acquired == c.old.self.acquired + 1),
        note="raises LockContention (nothing changed) when another process holds the dirstate")
assumed(("DirState", "lock_write"), result=NONE, modifies=["self._lock_token", "self.acquired"],
        requires=lambda c: c.self._lock_token.is_none,
        ensures=lambda c: And(Not(c.self._lock_token.is_none), truthy(c.self._lock_token), c.self.acquired == c.old.self.acquired + 1))
WT = cls("DirStateWorkingTree", fields=dict(branch=BL, _control_files=LF, _ds=DS))
assumed("self.current_dirstate", pure=True, returns=lambda c: c.self._ds, raises={"Exception": None},
        note="returns the tree's (cached) dirstate object; reading it may fail, changing no lock")


def wt_inv(s):
    return And(lf_inv(s._control_files), s.branch.depth >= 0,
               Implies(Not(s._ds._lock_token.is_none), truthy(s._ds._lock_token)),
               # the dirstate file is locked only while the control files are
               Implies(s._control_files._lock_count == 0, s._ds._lock_token.is_none))


def wt_acquired(c, mode):
    s, o = c.self, c.old.self
    return And(wt_inv(s), s.branch.depth == o.branch.depth + 1,
               s._control_files._lock_count == o._control_files._lock_count + 1,
               Not(s._ds._lock_token.is_none),
               s._ds.acquired == o._ds.acquired + If(o._ds._lock_token.is_none, 1, 0), s._ds.released == o._ds.released)


def wt_rolled_back(c, depth_delta=0):
    """A refused lock leaves the tree exactly as unlocked/locked as it was."""
    s, o = c.self, c.old.self
    return And(s.branch.depth == o.branch.depth + depth_delta,
               s._control_files._lock_count == o._control_files._lock_count,
               s._control_files._lock_mode == o._control_files._lock_mode,
               s._control_files._transaction == o._control_files._transaction,
               s._control_files._lock.acquired - s._control_files._lock.released
               <= o._control_files._lock.acquired - o._control_files._lock.released + 1,
               s._ds._lock_token == o._ds._lock_token, s._ds.acquired == o._ds.acquired, s._ds.released == o._ds.released)


WTP = "breezy/bzr/workingtree_4.py::DirStateWorkingTree."
WT_MOD = ["self.branch.depth", "self._control_files.*", "self._ds._lock_token", "self._ds.acquired", "self._repo_supports_tree_reference"]
target(WTP + "lock_read", requires=lambda c: wt_inv(c.self), modifies=WT_MOD,
       ensures={"acquired_in_order": lambda c: wt_acquired(c, "r"), "returns_a_lock_result": lambda c: Not(c.result.is_none)},
       raises={"Exception": lambda c: wt_rolled_back(c)},
       canary=lambda c: c.self.branch.depth == 0,
       equivalent_mutants={r"_repo_supports_tree_reference": "tree-reference support flag: outside the locking property"})

LOCK_SELF_W = verified(("DirStateWorkingTree", "_lock_self_write"),
                       requires=lambda c: And(wt_inv(c.self), c.self.branch.depth >= 1),
                       modifies=WT_MOD,
                       ensures=lambda c: And(wt_inv(c.self), c.self.branch.depth == c.old.self.branch.depth,
                                             c.self._control_files._lock_count == c.old.self._control_files._lock_count + 1,
                                             Not(c.self._ds._lock_token.is_none), Not(c.result.is_none),
                                             c.self._ds.acquired == c.old.self._ds.acquired + If(c.old.self._ds._lock_token.is_none, 1, 0),
                                             c.self._ds.released == c.old.self._ds.released),
                       # on failure the caller's branch lock is given back as well
                       raises={"Exception": lambda c: wt_rolled_back(c, -1)})
target(WTP + "_lock_self_write", contract=LOCK_SELF_W, canary=lambda c: c.self.branch.depth == 0,
       equivalent_mutants={r"_repo_supports_tree_reference": "tree-reference support flag: outside the locking property"})
target(WTP + "lock_tree_write", requires=lambda c: wt_inv(c.self), modifies=WT_MOD,
       ensures={"acquired_in_order": lambda c: wt_acquired(c, "w"), "returns_a_lock_result": lambda c: Not(c.result.is_none)},
       raises={"Exception": lambda c: wt_rolled_back(c)}, canary=lambda c: c.self.branch.depth == 0)
target(WTP + "lock_write", requires=lambda c: wt_inv(c.self), modifies=WT_MOD,
       ensures={"acquired_in_order": lambda c: wt_acquired(c, "w"), "returns_a_lock_result": lambda c: Not(c.result.is_none)},
       raises={"Exception": lambda c: wt_rolled_back(c)}, canary=lambda c: c.self.branch.depth == 0)
undecided("DirStateWorkingTree.unlock (dirstate save/flush) is not under contract")
